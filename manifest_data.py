"""Single source for MANIFEST.json (tools/gen_manifest.py renders it)."""

NOTES = ("Static analysis only: every check parses /repo's current working tree and decides structural clauses that are "
         "necessary conditions of the property (see DESIGN.md); value-level behaviour is stated as not decided in each "
         "level_note. Exit 0 = all rule instances hold (KNOWN-FINDING lines for recorded genuine defects), 1 = VIOLATION, "
         "2 = ANALYSIS-ERROR (checker could not analyse; fail closed).")

CHECKS = {
    "C20": {
        "category": "proof",
        "text": "The ten conversion functions are finite decision tables over one argument; they are extracted syntactically and "
                "the 25 obligations (5 scales x total / refuses-outside / monotone / round-trip / equals STIX 2.1 Appendix A) are "
                "discharged by exact interval algebra over the integers. Decides the whole property for int arguments.",
        "design_ref": "DESIGN.md section 5, C20",
        "note": "Trusted: CPython ast, Python chained-comparison semantics as encoded in sa/dectable.py, the hand transcription of "
                "Appendix A in spec/scales.json. Functions outside the supported syntactic class give ANALYSIS-ERROR, not a pass.",
        "technique": "decision-table extraction from if/elif chains + exact interval algebra (static)",
    },
}

_PENDING = "check under construction in this session (static rules designed in DESIGN.md section 5; not yet registered)"
NOT_APPLICABLE = {("C%02d" % i): _PENDING for i in range(1, 20)}
